"""Every public table of a cstruct object (helper of props/c14.py, round 8).

"Loading definitions, changing endianness or adding types on one cstruct object never affects types of another" - and, the other half of
"what a later default construction returns": a cstruct object created AFTER other objects were used looks like one created before them.  Here
the observation is not only "parse through the types" but EVERY PUBLIC TABLE a cstruct object carries:

    cs.endian, cs.pointer (name, size, alignment, owner), cs.consts (names, value classes, values), cs.lookups (names and tables),
    cs.typedefs (the names, what each name is bound to - a reference to another name or a type with name / size / alignment / the cstruct
    object it belongs to - and, before / after, the IDENTITY of every bound value),

plus a parse signature (layout, len, three parses with value / stream position / dumps, default construction; the first probe also through
T.read(stream), T.reads(bytes), cs.read(name, bytearray), T(memoryview)) of the object's own types and of three built-in scalars.

A session (every step is one line of Python source, executed by the harness and recorded; the replay scripts are made of these lines):
  * 2-4 cstruct objects made through every constructor spelling - cstruct(), cstruct('<'), cstruct(endian='>'), cstruct('>', 'uint16'),
    cstruct(pointer='uint32'), endian '!', '=', '@', a construction chained with load(): `c2 = cstruct(...).load(TEXT)` - some of them
    loaded at once, some left untouched (an object that never loads anything must keep empty consts / lookups).
  * actions on ONE object X, drawn per step:
      - a definition text made of 1-4 top-level constructs, EVERY construct the parsers accept: `#define` (decimal / hex / negative / string /
        expression over earlier constants), `typedef` (scalar, multi-word base type, array, pointer, known structure, `typedef struct _R {...} R,
        R2;`, anonymous structure), `struct` / `union` (scalars of 1-16 bytes, floats, char / wchar, typedef'd names, enums, nested structures and
        arrays of them, arrays sized by a literal / a constant / a constant expression / an earlier member, bit-field runs, pointers, inline
        anonymous structures, null-terminated tails), `enum` / `flag` (with / without base type, values from constants, anonymous enums that
        define constants), the lookup syntax `$name = {'CONST': value}`, the config flag `#[nocompile]`;
        all objects draw their names from the same small pools (K0..K3, word_t, E, S, N, U, lk, ...) with values of their own, so that a table
        shared between objects is overwritten visibly;
      - through every way a text reaches a parser: load(T), load(T, compiled=..., align=...), load(T, deftype=cstruct.DEF_CSTYLE), positional
        deftype, the legacy parser (deftype=cstruct.DEF_LEGACY / 2 / cs.DEF_LEGACY, with the subset of constructs it reads: #define, named
        enum / flag, flat structures, typedef, lookups), loadfile(str path) / loadfile(pathlib.Path) of a real file (both parsers), a new object
        built by `cstruct(...).load(T)`;
      - API construction: add_type / addtype (name reference, type object, replace=True of an own or a built-in name), add_custom_type, direct
        writes to cs.consts / cs.lookups / cs.typedefs, `X.endian = ...` (all five byte-order codes), `X.pointer = X.uint32`;
      - loads that FAIL (duplicate type, unknown member type, syntax error, lookup over an unknown constant, missing file): whatever they leave
        behind on X, the other objects must not notice.
Oracles, after every step on X:
  1. bystanders: every OTHER object of the session (created before the step) shows exactly what it showed before the step - every table row,
     the parse signature, and the identity of every value in its typedefs (`cs.typedefs[name] is <the object it was>`).
  2. a fresh object: `cstruct(<one of the session's constructor spellings>)` created after the step shows the tables and the built-in parse
     signature that the same expression gave at the very start of the session, before anything was loaded anywhere; it then loads the
     session's probe definition (which uses the SAME names as the objects of the session: constants, typedef, enum, structure, lookup) through
     the session's entry point and must again show - outcome of the load, tables, parse signature of the new types - what the reference object
     showed at the start.  (The harness does not prescribe what a new object contains, only that it does not depend on the history.)  The
     tables and the built-in signature are compared after every step, the probe load is performed on 40 % of the steps (it costs as much as the
     rest of the step).  Before the first object of the session exists, a second object made by the first reference expression must equal the
     first one - the reference objects loaded the probe definition, lookup included, themselves.
  3. own history only (end of the session, and at once when a line that must succeed raises): every object shows - outcome of each of its
     lines, tables, parse signature - what it shows in a new universe that executed only ITS OWN lines, none of the other objects'.
  4. every line the generator writes as valid must succeed (constructor, load of an accepted definition, add_type, ...): one that raises in the
     object's own universe as well is reported as such.
  5. at the end of the run: a new cstruct() shows the tables it showed before the first session.
After four reports the family stops (a table shared by all objects fails in every session).
Nothing is excluded; F8 (shared container defaults) is not in play, no instance is mutated in place here.  Only the running number in the names
of anonymous structures is normalised inside one observation (as in v4_c14).

Every reported case carries a standalone `script` that sets `fails` (oracles 1, 2, 4) or two scripts `script_a` / `script_b` whose output must
be equal (oracle 3); `--replay` re-executes them, each in a process of its own.
"""
from __future__ import annotations

import contextlib
import io
import shutil
import tempfile

from . import common, impl, v4_c14

TAB_SRC = r'''
import os as _os, tempfile as _tf, pathlib as _pl

_dir = None
_log = []


def _file(name, text):
    """write a definition file (for loadfile) into a scratch directory, -> its path"""
    global _dir
    if _dir is None:
        import atexit, shutil
        _dir = _tf.mkdtemp(prefix="v9c14-")
        atexit.register(shutil.rmtree, _dir, True)
    p = _os.path.join(_dir, name)
    with open(p, "w", newline="") as f:
        f.write(text)
    return p


def _tables(cs):
    """every public table of a cstruct object -> [(label, value)] (values: strings or sorted lists of tuples)"""
    def td():
        out = []
        for k in sorted(cs.typedefs, key=str):
            v = cs.typedefs[k]
            if isinstance(v, str):
                out.append((k, "-> " + v))
            else:
                out.append((k, _norm(str(getattr(v, "__name__", "?"))), getattr(v, "size", "?"), getattr(v, "alignment", "?"),
                            "of this object" if getattr(v, "cs", None) is cs else "of another object"))
        return out
    rows = [("cs.endian", _try(lambda: cs.endian)),
            ("cs.pointer (name, size, alignment, owner)",
             _try(lambda: (cs.pointer.__name__, cs.pointer.size, cs.pointer.alignment, "of this object" if cs.pointer.cs is cs else "of another object"))),
            ("cs.consts (name, class, value)", _try(lambda: sorted(((str(k), type(v).__name__, repr(v)) for k, v in cs.consts.items())))),
            ("cs.lookups (name, table)", _try(lambda: sorted((str(k), repr(sorted((repr(a), repr(b)) for a, b in v.items()))) for k, v in cs.lookups.items()))),
            ("cs.typedefs (name, reference | type name, size, alignment, owner)", _try(td))]
    return [(l, v[1] if v[0] == "ok" and isinstance(v[1], list) else repr(v)) for l, v in rows]


def _entry(cs, n, d):
    T = getattr(cs, n)
    return [("T(bytes)", _try(lambda: _val(T(d)))), ("T.read(stream)", _try(lambda: _val(T.read(_io.BytesIO(d))))), ("T.reads(bytes)", _try(lambda: _val(T.reads(d)))),
            ("cs.read(name, bytearray)", _try(lambda: _val(cs.read(n, bytearray(d))))), ("T(memoryview)", _try(lambda: _val(T(memoryview(d)))))]


def _snap(cs, names, probes):
    """tables + parse signature of the names -> [(label, value)]"""
    rows = _tables(cs)
    rows += [(l, v) for l, v in observe(cs, names, probes)]
    for n in names:
        rows.append(("%s through T(bytes) / T.read(stream) / T.reads(bytes) / cs.read(name, bytearray) / T(memoryview)" % n, _norm(repr(_try(lambda: _entry(cs, n, probes[0]))))))
    return rows


def _idents(cs):
    """the values of cs.typedefs and the pointer type, kept to compare their identity later"""
    d = dict(cs.typedefs)
    d["(cs.pointer)"] = cs.pointer
    return d


def _ident_changes(before, cs):
    now = _idents(cs)
    out = []
    for k in sorted(set(before) | set(now), key=str):
        a, b = before.get(k, "<absent>"), now.get(k, "<absent>")
        if not ((isinstance(a, str) and isinstance(b, str) and a == b) or a is b):
            out.append(k)
    return out


def _own_names(cs, builtin, cap=6):
    return [n for n in sorted(cs.typedefs, key=str) if isinstance(n, str) and n not in builtin][:cap]


def _fresh(make, builtin_names, probes, load=None):
    """a new object: tables + built-in parse signature, then the probe load and tables + parse signature of what it defined"""
    f = make()
    known = set(f.typedefs)
    rows = [("new object: " + l, v) for l, v in _snap(f, builtin_names, probes)]
    if load is None:
        return rows
    rows.append(("new object: outcome of the probe load", _outcome(lambda: load(f))))
    rows += [("new object after its probe load: " + l, v) for l, v in _snap(f, _own_names(f, known), probes)]
    return rows


def _outcome(f):
    try:
        f()
    except Exception as e:
        return "raises " + type(e).__name__
    return "ok"


def _cmp(title, a, b, la, lb, idents=()):
    """print and return the differences between two observations"""
    out = []
    for (l1, v1), (l2, v2) in zip(a, b):
        if l1 != l2:
            out.append("%s / %s: different rows" % (l1, l2))
        elif v1 != v2:
            if isinstance(v1, list) and isinstance(v2, list):
                out.append("%s: only %s: %r; only %s: %r" % (l1, la, [x for x in v1 if x not in v2][:6], lb, [x for x in v2 if x not in v1][:6]))
            else:
                out.append("%s: %s: %s; %s: %s" % (l1, la, str(v1)[:400], lb, str(v2)[:400]))
    if len(a) != len(b):
        out.append("%d rows %s, %d rows %s" % (len(a), la, len(b), lb))
    if idents:
        out.append("cs.typedefs[name] is no longer the object it was for: %r" % (list(idents)[:8],))
    for line in out:
        print(title + ": " + line)
    return out


def _show(rows, log):
    for entry in log:
        print("line", entry)
    for l, v in rows:
        print(l, "->", v)
'''
SRC = v4_c14.OBS_SRC + TAB_SRC
HEADER = "from dissect.cstruct import cstruct\n" + SRC
_CODE = compile(SRC, "<v9_c14 observation>", "exec")

CTORS = ["cstruct()", "cstruct()", "cstruct('<')", "cstruct(endian='>')", "cstruct('>')", "cstruct(endian='<', pointer='uint32')", "cstruct('>', 'uint16')",
         "cstruct(pointer='uint64')", "cstruct(endian='!')", "cstruct('=')", "cstruct(endian='@', pointer='uint32')", "cstruct(endian='<')", "cstruct(pointer='uint16')"]
ENDIANS = ["<", ">", "<", ">", "!", "=", "@"]
SCALARS = ["uint8", "int8", "uint16", "int16", "uint32", "int32", "uint64", "int64", "uint24", "int24", "uint48", "uint128", "float", "double", "char", "wchar",
           "BYTE", "WORD", "DWORD", "uint16_t", "u4", "uint8", "uint16", "uint32"]
INTS = ["uint8", "int8", "uint16", "int16", "uint32", "int32", "uint64", "uint24", "int24", "uint128", "WORD", "u4"]
BITS = {"uint8": 8, "uint16": 16, "uint32": 32, "uint64": 64, "int16": 16}
MULTIWORD = ["unsigned int", "unsigned short", "long long", "unsigned long long", "signed char"]
BUILTIN_PICKS = ["uint8", "uint16", "int16", "uint32", "int32", "uint64", "uint24", "int24", "uint48", "uint128", "float", "double", "char", "wchar", "WORD", "DWORD"]
POOL = {"const": ["K0", "K1", "K2", "K3"], "typedef": ["word_t", "len_t", "id_t", "off_t"], "enum": ["E", "F", "G"], "struct": ["S", "N", "T", "R", "Hdr", "Rec"],
        "union": ["U", "V"], "lookup": ["lk", "tab", "names"]}


# --------------------------------------------------------------------------------------------------------------------
# what the harness knows about an object (only to write definitions the library accepts)
# --------------------------------------------------------------------------------------------------------------------
class Obj:
    def __init__(self, var):
        self.var = var
        self.ints: dict[str, int] = {}      # constants with small positive int values (usable as array sizes)
        self.consts: set[str] = set()       # every hashable constant name (usable as lookup keys)
        self.types: dict[str, dict] = {}    # own type names: {"kind": scalar | enum | struct | union | other, "static": bool}
        self.n = 0                          # lines executed on this object
        self.serial = 0

    def fresh_name(self, rnd, kind):
        free = [n for n in POOL[kind] if n not in self.types and n not in self.consts]
        if free and rnd.random() < 0.9:
            return rnd.choice(free)
        self.serial += 1
        return f"{POOL[kind][0]}{self.serial}x"

    def member_types(self, legacy, static=False):
        out = []
        for n, t in self.types.items():
            if t["kind"] in ("scalar", "enum", "struct", "union") and (t["static"] or not static) and not (legacy and t["kind"] in ("struct", "union")):
                out.append(n)
        return out


class Gen:
    """writes definition texts for one object; commit() makes the harness's knowledge of the object follow once the load succeeded"""

    def __init__(self, rnd, o: Obj, legacy: bool):
        self.rnd, self.o, self.legacy = rnd, o, legacy
        self.ints = dict(o.ints)
        self.consts = set(o.consts)
        self.types = dict(o.types)
        self.kinds: list[str] = []
        self.mcount = 0

    def commit(self):
        self.o.ints, self.o.consts, self.o.types = self.ints, self.consts, self.types

    def tname(self, kind):
        free = [n for n in POOL[kind] if n not in self.types and n not in self.consts]
        if free and self.rnd.random() < 0.9:
            return self.rnd.choice(free)
        self.o.serial += 1
        return f"{POOL[kind][0]}{self.o.serial}x"

    def m(self, p="m"):
        self.mcount += 1
        return f"{p}{self.mcount}"

    # ---------------------------------------------------------------------------------------------------- constructs
    def define(self):
        rnd = self.rnd
        r = rnd.random()
        if r < 0.6 or not self.ints:
            name, v = rnd.choice(POOL["const"]), rnd.randint(1, 4)
            text = f"#define {name} {rnd.choice([str(v), hex(v)]) if not self.legacy else v}"
            self.ints[name] = v
            self.kinds.append("define:int")
        elif r < 0.75 and not self.legacy:
            base = rnd.choice(sorted(self.ints))
            name = rnd.choice([n for n in POOL["const"] if n != base])
            v = self.ints[base] + 1
            text = f"#define {name} ({base} + 1)"
            self.ints[name] = v
            self.kinds.append("define:expression")
        elif r < 0.9:
            name = rnd.choice(["BIG", "MAGIC", "NEG"])
            text = f"#define {name} {rnd.choice(['0xdeadbeef', '65536', '-1', '0x7fffffffffffffff', str(rnd.randrange(1 << 20))])}"
            self.ints.pop(name, None)
            self.kinds.append("define:big")
        else:
            name = rnd.choice(["NAME", "LABEL"])
            text = "#define " + name + " " + rnd.choice(['"text"', '"a b"', "'q'", 'b"raw"'])
            self.kinds.append("define:string")
        self.consts.add(name)
        return text + "\n"

    def need_const(self):
        return "" if self.ints else self.define()

    def typedef(self):
        rnd = self.rnd
        name = self.tname("typedef")
        r = rnd.random()
        if self.legacy or r < 0.4:
            base = rnd.choice(INTS)
            self.types[name] = {"kind": "scalar", "static": True}
            self.kinds.append("typedef:scalar")
            return f"typedef {base} {name};\n"
        if r < 0.5:
            self.types[name] = {"kind": "scalar", "static": True}
            self.kinds.append("typedef:multi-word-base")
            return f"typedef {rnd.choice(MULTIWORD)} {name};\n"
        if r < 0.62:
            self.types[name] = {"kind": "other", "static": True}
            self.kinds.append("typedef:array")
            return f"typedef {rnd.choice(['uint8', 'char', 'uint16', 'int32'])} {name}[{rnd.randint(2, 5)}];\n"
        if r < 0.7:
            self.types[name] = {"kind": "other", "static": True}
            self.kinds.append("typedef:pointer")
            return f"typedef {rnd.choice(['uint32', 'char', 'uint8'])} *{name};\n"
        structs = [n for n, t in self.types.items() if t["kind"] in ("struct", "union")]
        if r < 0.8 and structs:
            src = rnd.choice(structs)
            self.types[name] = dict(self.types[src])
            self.kinds.append("typedef:known-structure")
            return f"typedef {src} {name};\n"
        body, static = self.members(rnd.randint(1, 3))
        if r < 0.9:
            tag, n1, n2 = self.tname("struct"), name, None
            self.types[tag] = {"kind": "struct", "static": static}
            n2 = self.tname("struct")
            self.types[n1] = {"kind": "struct", "static": static}
            self.types[n2] = {"kind": "struct", "static": static}
            self.kinds.append("typedef:struct-with-tag-and-two-names")
            return f"typedef struct {tag} {{ {body} }} {n1}, {n2};\n"
        self.types[name] = {"kind": "struct", "static": static}
        self.kinds.append("typedef:anonymous-struct")
        return f"typedef struct {{ {body} }} {name};\n"

    def enum(self):
        rnd = self.rnd
        if not self.legacy and rnd.random() < 0.2:
            self.o.serial += 1
            a, b = f"X{self.o.serial}", f"Y{self.o.serial}"
            # (the members of an anonymous enum become constants; the harness never uses them as sizes / lookup keys)
            self.kinds.append("enum:anonymous")
            return f"enum {{ {a} = {rnd.randint(1, 9)}, {b} }};\n"
        name = self.tname("enum")
        kind = rnd.choice(["enum", "enum", "flag"])
        base = rnd.choice(["", "", " : uint8", " : uint16", " : uint32", " : int32", " : uint64"] + ([] if self.legacy else [" : unsigned short"]))
        vals = []
        for i in range(rnd.randint(1, 4)):
            r = rnd.random()
            if r < 0.5:
                vals.append(f"{name}_{'ABCD'[i]}")
            elif r < 0.85 or not self.ints:
                vals.append(f"{name}_{'ABCD'[i]} = {1 << rnd.randint(0, 6)}")
            else:
                vals.append(f"{name}_{'ABCD'[i]} = {rnd.choice(sorted(self.ints))}")
        self.types[name] = {"kind": "enum", "static": True}
        self.kinds.append(f"{kind}:{'with-base' if base else 'default-base'}")
        sep = rnd.choice([", ", ",\n  "])
        return f"{kind} {name}{base} {{ {sep.join(vals)} }};\n"

    def member(self, static_only):
        """-> (source, static?)"""
        rnd, L = self.rnd, self.legacy
        r = rnd.random()
        colon = ":" if L else rnd.choice([" : ", ": ", ":"])
        if r < 0.3:
            return f"{rnd.choice(SCALARS)} {self.m()};", True
        if r < 0.4:
            known = [n for n, t in self.types.items() if t["kind"] in ("scalar", "enum") or (t["kind"] in ("struct", "union") and not L and (t["static"] or not static_only))]
            if known:
                n = rnd.choice(known)
                return f"{n} {self.m()};", self.types[n]["static"]
            return f"{rnd.choice(INTS)} {self.m()};", True
        if r < 0.52:
            size = rnd.choice([str(rnd.randint(1, 4))] + (sorted(self.ints) if self.ints else []) + ([f"{rnd.choice(sorted(self.ints))} + 1"] if self.ints and not L else []))
            return f"{rnd.choice(INTS + ['char', 'wchar', 'char'])} {self.m()}[{size}];", True
        if r < 0.6:
            known = [n for n, t in self.types.items() if t["kind"] in ("struct", "union", "enum", "scalar") and t["static"] and not (L and t["kind"] in ("struct", "union"))]
            if known:
                return f"{rnd.choice(known)} {self.m()}[{rnd.randint(1, 3)}];", True
            return f"uint16 {self.m()}[2];", True
        if r < 0.7:
            store = rnd.choice(sorted(BITS))
            left, out = BITS[store], []
            for _ in range(rnd.randint(1, 3)):
                if left <= 0:
                    break
                w = rnd.randint(1, min(left, rnd.choice([3, 7, 12])))
                out.append(f"{store} {self.m('b')}{colon}{w};")
                left -= w
            return " ".join(out) + f" uint8 {self.m()};", True       # (a plain member closes the run)
        if r < 0.78:
            return f"{rnd.choice(['uint8', 'uint32', 'char', 'uint16'])} *{self.m('p')};", True
        if r < 0.86 and not static_only:
            c = self.m("k")
            return f"{rnd.choice(['uint8', 'uint16'])} {c}; {rnd.choice(['uint8', 'uint16', 'int24', 'char'])} {self.m('d')}[{rnd.choice(['{c} & 3', '{c} % 3', '({c} & 1) + 1']).format(c=c)}];", False
        if r < 0.93 and not L:
            return f"struct {{ uint8 {self.m()}; {rnd.choice(INTS)} {self.m()}; }} {self.m('in')};", True
        return f"{rnd.choice(['float', 'double', 'int64', 'uint48'])} {self.m()};", True

    def members(self, n, static_only=False):
        out, static = [], True
        for _ in range(n):
            src, st = self.member(static_only)
            out.append(src)
            static = static and st
        if not static_only and not self.legacy and self.rnd.random() < 0.08:
            out.append(f"char {self.m('z')}[];")
            static = False
        sep = "\n  " if self.legacy or self.rnd.random() < 0.5 else " "
        return sep.join(out), static

    def struct(self):
        name = self.tname("struct")
        body, static = self.members(self.rnd.randint(1, 5))
        flag = ""
        if not self.legacy and self.rnd.random() < 0.25:
            flag = self.rnd.choice(["#[nocompile]\n", "#[nocompile]\n", "#[nocompile,other]\n"])
            self.kinds.append("config-flag")
        self.types[name] = {"kind": "struct", "static": static}
        self.kinds.append("struct")
        return f"{flag}struct {name} {{\n  {body}\n}};\n"

    def union(self):
        name = self.tname("union")
        body, _ = self.members(self.rnd.randint(2, 3), static_only=True)
        self.types[name] = {"kind": "union", "static": True}
        self.kinds.append("union")
        return f"union {name} {{ {body} }};\n"

    def lookup(self):
        rnd = self.rnd
        pre = self.need_const()
        keys = rnd.sample(sorted(self.ints), rnd.randint(1, min(3, len(self.ints))))
        name = rnd.choice(POOL["lookup"])
        vals = [rnd.choice([repr(rnd.choice(["zero", "file", "dir", "x y"])), str(rnd.randint(0, 99)), "None", "(1, 2)"]) for _ in keys]
        self.kinds.append("lookup")
        return pre + f"${name} = {{{', '.join(f'{k!r}: {v}' for k, v in zip(keys, vals))}}}\n"

    def text(self, want=None, n=None):
        """a definition text of 1-4 top-level constructs -> (text, kinds)"""
        rnd = self.rnd
        menu = ["define", "define", "typedef", "struct", "struct", "enum", "lookup", "lookup"] + ([] if self.legacy else ["union"])
        picks = list(want or []) + [rnd.choice(menu) for _ in range(n if n is not None else rnd.randint(1, 4) - len(want or []))]
        parts = [getattr(self, k)() for k in picks]
        if self.legacy:
            # the legacy parser reads the text in passes (constants, enums, structures, lookups): a text in that order means the same to both parsers
            order = {"#": 0, "e": 1, "f": 1, "t": 2, "s": 2, "$": 3}
            flat = [p for part in parts for p in split_constructs(part)]
            parts = sorted(flat, key=lambda p: order[p[0]])
        return "".join(parts), self.kinds


def split_constructs(part):
    """a `lookup` part may carry the #define it needs in front"""
    if part.startswith("#define") and "\n$" in part:
        i = part.index("\n$") + 1
        return [part[:i], part[i:]]
    return [part]


# --------------------------------------------------------------------------------------------------------------------
# sessions
# --------------------------------------------------------------------------------------------------------------------
def block(var, k, src):
    return (f"try:\n    {src}\nexcept Exception as _e:\n    _log.append(({var!r}, {k}, 'raises ' + type(_e).__name__))\n"
            f"else:\n    _log.append(({var!r}, {k}, 'ok'))")


class Session:
    def __init__(self, dc, rnd, scratch, builtin):
        self.dc, self.rnd, self.builtin = dc, rnd, builtin
        self.ns = self.new_ns(scratch)
        self.scratch = scratch
        self.objs: list[Obj] = []
        self.lines: list[tuple] = []    # (object index, ordinal on that object, source, must succeed?)
        self.files = 0
        self.probes = [bytes(rnd.randrange(256) for _ in range(96)), bytes(rnd.choice([0, 1, 2, 3, 0x41, 0xFF]) for _ in range(96)),
                       bytes(rnd.randrange(256) for _ in range(rnd.randint(0, 7)))]
        self.picks = rnd.sample(BUILTIN_PICKS, 3)

    def new_ns(self, scratch):
        ns = {"cstruct": self.dc.cstruct}
        exec(_CODE, ns)  # noqa: S102 - our own source text above
        ns["_dir"] = scratch
        return ns

    def script(self, upto=None, only=None):
        return [block(self.objs[x].var, k, src) for x, k, src, _ in self.lines[:upto] if only is None or x == only]

    def run(self, x, src, must=True):
        """execute one line on object x -> "ok" | "raises <class>: <message>" """
        o = self.objs[x]
        o.n += 1
        self.lines.append((x, o.n, src, must))
        before = len(self.ns["_log"])
        exec(compile(block(o.var, o.n, src), "<v9_c14 step>", "exec"), self.ns)  # noqa: S102 - lines generated by this module
        return self.ns["_log"][before][2]

    def universe(self, x):
        """object x in a new universe that executes only its own lines -> (rows, log)"""
        ns = self.new_ns(self.scratch)
        for b in self.script(only=x):
            exec(compile(b, "<v9_c14 own universe>", "exec"), ns)  # noqa: S102
        cs = ns.get(self.objs[x].var)
        if cs is None:
            return [("(own universe)", "the object was not created")], list(ns["_log"])
        return ns["_snap"](cs, self.names_of(cs), self.probes), list(ns["_log"])

    def names_of(self, cs):
        try:
            return self.ns["_own_names"](cs, self.builtin) + self.picks
        except Exception:  # noqa: BLE001
            return list(self.picks)

    def load_call(self, var, text, legacy, chained=False):
        """-> source of a call that loads `text` into `var` through one of the entry points, label"""
        rnd = self.rnd
        kw = []
        pos = ""
        if legacy:
            dt = rnd.choice(["deftype=cstruct.DEF_LEGACY", "deftype=2", f"deftype={var}.DEF_LEGACY" if not chained else "deftype=cstruct.DEF_LEGACY", "POS"])
        else:
            dt = rnd.choice([None, None, None, None, "deftype=cstruct.DEF_CSTYLE", "deftype=None", "POS"])
        if dt == "POS":
            pos = ", 2" if legacy else ", 1"
        elif dt:
            kw.append(dt)
        c = rnd.choice([None, None, True, False])
        if c is not None:
            kw.append(f"compiled={c}")
        if not legacy:
            a = rnd.choice([None, None, None, True, False])
            if a is not None:
                kw.append(f"align={a}")
        rnd.shuffle(kw)
        kws = "".join(", " + k for k in kw)
        via = rnd.choice(["load", "load", "load", "loadfile(str)", "loadfile(Path)"]) if not chained else "load"
        if via == "load":
            return f"{var}.load({text!r}{pos}{kws})", ("legacy:" if legacy else "token:") + via
        self.files += 1
        f = f"_file('d{self.files}.h', {text!r})"
        if via == "loadfile(Path)":
            f = f"_pl.Path({f})"
        return f"{var}.loadfile({f}{pos}{kws})", ("legacy:" if legacy else "token:") + via


def table_session(env, res, viol, rnd, dc, scratch, builtin, nsteps):
    s = Session(dc, rnd, scratch, builtin)
    ns = s.ns

    def stop_line(x, src, outcome):
        """a line that must succeed raised: in the object's own universe as well?"""
        o = s.objs[x]
        rows, log = s.universe(x)
        alone = log[-1][2] if log else "?"
        if alone != "ok":
            viol(f"public tables: a call that must succeed raises ({outcome}, and {alone} in a universe with only this object): `{src[:300]}`",
                 {"family": "v9:tables-line", "line": src, "script": "\n".join([HEADER] + s.script(only=x) + ["fails = _log[-1][2] != 'ok'", "print(_log[-1])"])})
        else:
            viol(f"public tables: `{src[:300]}` {outcome} in a session with other cstruct objects, but succeeds in a universe in which only {o.var} exists",
                 {"family": "v9:tables-universe", "object": o.var, "script_a": "\n".join([HEADER] + s.script() + [f"_show([], [e for e in _log if e[0] == {o.var!r}])"]),
                  "script_b": "\n".join([HEADER] + s.script(only=x) + [f"_show([], [e for e in _log if e[0] == {o.var!r}])"])})

    # ---- the reference for new objects: before anything else happens in this session
    ctors = rnd.sample(sorted(set(CTORS)), 2)
    pg = Gen(rnd, Obj("f"), legacy=rnd.random() < 0.25)
    ptext, _ = pg.text(want=["define", "typedef", "enum", "struct", "lookup"], n=rnd.randint(0, 1))
    pcall, plabel = s.load_call("f", ptext, pg.legacy)
    fresh_src = {c: f"_fresh(lambda: {c}, {s.picks!r}, {s.probes!r}, lambda f: {pcall})" for c in ctors}
    short_src = {c: f"_fresh(lambda: {c}, {s.picks!r}, {s.probes!r})" for c in ctors}      # (tables and built-in signature only)
    ref_lines = [f"_ref{i} = {fresh_src[c]}" for i, c in enumerate(ctors)]
    refs = {}
    for i, c in enumerate(ctors):
        exec(compile(ref_lines[i], "<v9_c14 reference>", "exec"), ns)  # noqa: S102
        refs[c] = ns[f"_ref{i}"]
        if not any(l.endswith("outcome of the probe load") and v == "ok" for l, v in refs[c]):
            viol(f"public tables: a new object rejects the probe definition: `{pcall[:300]}`",
                 {"family": "v9:tables-line", "line": pcall, "script": "\n".join([HEADER, f"f = {c}", block("f", 1, pcall), "fails = _log[-1][2] != 'ok'", "print(_log[-1])"])})
            return
    res.feat("v9:tables:probe-load:" + plabel)
    # the reference objects loaded the probe definition themselves: a second object made by the same expression right afterwards shows the same
    c, i = ctors[0], 0          # (the first reference object was made before any load at all)
    got = eval(fresh_src[c], ns)  # noqa: S307 - source written by this module
    res.count(("v9:tables:fresh-twice", c, pcall), True)
    res.feat("v9:tables:oracle:fresh-object:second-after-first")
    if got != refs[c]:
        with contextlib.redirect_stdout(io.StringIO()):
            diff = ns["_cmp"]("", refs[c], got, "the first", "the second")
        viol(f"public tables: two new objects made one after the other by `{c}` differ; the first one (and one made by `{ctors[1 - i]}`) loaded `{pcall[:200]}` before the "
             f"second was created - {'; '.join(diff)[:700]}",
             {"family": "v9:tables-fresh", "constructor": c, "probe_load": pcall, "differences": diff[:10],
              "script": "\n".join([HEADER] + ref_lines + [f"_now = {fresh_src[c]}", f"fails = bool(_cmp({'a second new object ' + c!r}, _ref{i}, _now, 'the first', 'the second'))"])})
        return

    # ---- the objects
    def new_object(chain_ok=True):
        x = len(s.objs)
        o = Obj(f"c{x}")
        s.objs.append(o)
        ctor = rnd.choice(CTORS)
        res.feat("v9:tables:ctor:" + ctor)
        if chain_ok and rnd.random() < 0.3:
            g = Gen(rnd, o, legacy=rnd.random() < 0.2)
            text, kinds = g.text()
            call, label = s.load_call(ctor, text, g.legacy, chained=True)
            src = f"{o.var} = {call}"
            out = s.run(x, src)
            if out == "ok":
                g.commit()
                for k in kinds:
                    res.feat("v9:tables:construct:" + k)
                res.feat("v9:tables:step:constructor-chained-with-load")
        else:
            src = f"{o.var} = {ctor}"
            out = s.run(x, src)
        if out != "ok":
            stop_line(x, src, out)
            return None
        return x

    def act(x):
        """one action on object x -> (source, label, must succeed?, commit function | None)"""
        o = s.objs[x]
        v = o.var
        r = rnd.random()
        if r < 0.62:
            g = Gen(rnd, o, legacy=rnd.random() < 0.25)
            text, kinds = g.text()
            call, label = s.load_call(v, text, g.legacy)

            def commit():
                g.commit()
                for k in kinds:
                    res.feat("v9:tables:construct:" + ("legacy:" if g.legacy else "") + k)
            return call, "load:" + label, True, commit
        if r < 0.72:
            # loads that fail: one construct, so that the harness still knows what the object holds (names that stay behind are never used again)
            o.serial += 1
            u = f"Q{o.serial}q"
            known = [n for n, t in o.types.items() if t["kind"] in ("struct", "union")]
            kind = rnd.choice(["unknown-member-type", "syntax", "lookup-unknown-constant", "missing-file", "unknown-typedef-base"] + (["duplicate-type"] * 2 if known else []))
            legacy = ""
            if kind == "duplicate-type":
                text = f"struct {rnd.choice(known)} {{ uint8 {u}; uint64 other; }};"
            elif kind == "unknown-member-type":
                text = f"struct {u} {{ uint8 a; nosuch_t b; }};"
            elif kind == "syntax":
                text = rnd.choice([f"struct {u} {{ uint8 a;", f"struct {{ uint8 a; }};", f"typedef uint8 {u} : 3;", f"struct {u} {{ uint8 a }};"])
            elif kind == "lookup-unknown-constant":
                text = f"${rnd.choice(POOL['lookup'])} = {{'NOSUCH{o.serial}': 1}}\n"
                legacy = rnd.choice(["", ", deftype=cstruct.DEF_LEGACY"])
            elif kind == "unknown-typedef-base":
                text = f"typedef nosuch_t {u};"
            else:
                return f"{v}.loadfile(_os.path.join(_dir or '.', 'no-such-file-{o.serial}.h'))", "failing-load:" + kind, False, None
            return f"{v}.load({text!r}{legacy})", "failing-load:" + kind, False, None
        if r < 0.8:
            k = rnd.random()
            if k < 0.3:
                name = o.fresh_name(rnd, "typedef")
                src = f"{v}.{rnd.choice(['add_type', 'addtype'])}({name!r}, {rnd.choice(INTS)!r})"

                def commit():
                    o.types[name] = {"kind": "scalar", "static": True}
                return src, "api:add_type(name, reference)", True, commit
            if k < 0.5:
                name = o.fresh_name(rnd, "typedef")
                src = f"{v}.{rnd.choice(['add_type', 'addtype'])}({name!r}, {v}.{rnd.choice(['uint16', 'int32', 'uint64', 'char', 'uint24'])})"

                def commit():
                    o.types[name] = {"kind": "other", "static": True}
                return src, "api:add_type(name, type object)", True, commit
            if k < 0.65:
                name = rnd.choice(s.picks)
                # (a storage type of bit fields only grows, so that the bit-field runs written later still fit)
                # (and no name is ever made a reference to itself / into a cycle: that object could not resolve the name any more)
                if name == "uint64":
                    return f"{v}.add_type('uint64', {v}.int64, replace=True)", "api:add_type(built-in name, type object, replace=True)", True, None
                target = "uint64" if name in BITS else rnd.choice(["uint8", "uint32", "int16", "uint64"])
                return f"{v}.add_type({name!r}, {target!r}, replace=True)", "api:add_type(built-in name, replace=True)", True, None
            if k < 0.8:
                scal = [n for n, t in o.types.items() if t["kind"] == "scalar"]
                if scal:
                    return f"{v}.add_type({rnd.choice(scal)!r}, {rnd.choice(INTS)!r}, replace=True)", "api:add_type(own name, replace=True)", True, None
            name = o.fresh_name(rnd, "typedef")
            size = rnd.choice([5, 7, 9])
            src = f"{v}.add_custom_type({name!r}, {v}.int48.__mro__[1], {size}, signed={rnd.random() < 0.5})"

            def commit():
                o.types[name] = {"kind": "other", "static": True}
            return src, "api:add_custom_type", True, commit
        if r < 0.88:
            k = rnd.random()
            if k < 0.4:
                name, val = rnd.choice(POOL["const"]), rnd.randint(1, 4)

                def commit():
                    o.ints[name] = val
                    o.consts.add(name)
                return f"{v}.consts[{name!r}] = {val}", "direct:consts[name] = value", True, commit
            if k < 0.8:
                return (f"{v}.lookups[{rnd.choice(POOL['lookup'])!r}] = {{{rnd.randint(0, 9)}: {rnd.choice(['a', 'b', 'file'])!r}}}", "direct:lookups[name] = table", True, None)
            name = o.fresh_name(rnd, "typedef")

            def commit():
                o.types[name] = {"kind": "scalar", "static": True}
            return f"{v}.typedefs[{name!r}] = {rnd.choice(INTS)!r}", "direct:typedefs[name] = reference", True, commit
        if r < 0.95:
            return f"{v}.endian = {rnd.choice(ENDIANS)!r}", "configure:endian", True, None
        return f"{v}.pointer = {v}.{rnd.choice(['uint16', 'uint32', 'uint64', 'uint8'])}", "configure:pointer", True, None

    def snap(x):
        cs = ns[s.objs[x].var]
        names = s.names_of(cs)
        return {"names": names, "rows": ns["_snap"](cs, names, s.probes), "ids": ns["_idents"](cs)}

    state: list = []

    def checks(x, src):
        """oracles 1 and 2 after the line `src` executed on object x -> False when a violation was reported"""
        while len(state) < len(s.objs):
            state.append(None)
        hist = tuple(l[2] for l in s.lines)
        xv = s.objs[x].var
        # 1. bystanders
        for y, oy in enumerate(s.objs):
            if y == x or state[y] is None:
                continue
            cs = ns[oy.var]
            b = state[y]
            rows = ns["_snap"](cs, b["names"], s.probes)
            changed = ns["_ident_changes"](b["ids"], cs)
            res.count(("v9:tables:bystander", hist, y), True)
            res.feat("v9:tables:oracle:bystander" + (":untouched-object" if oy.n == 1 else ""))
            if rows != b["rows"] or changed:
                with contextlib.redirect_stdout(io.StringIO()):
                    diff = ns["_cmp"]("", b["rows"], rows, "before", "after", changed)
                viol(f"public tables: {oy.var} changed by a step on another cstruct object: after `{src[:240]}` - {'; '.join(diff)[:700]}",
                     {"family": "v9:tables-bystander", "object": oy.var, "step": src, "differences": diff[:10],
                      "script": "\n".join([HEADER] + s.script(upto=len(s.lines) - 1)
                                          + [f"_before = _snap({oy.var}, {b['names']!r}, {s.probes!r}); _ids = _idents({oy.var})"]
                                          + s.script()[-1:]
                                          + [f"_after = _snap({oy.var}, {b['names']!r}, {s.probes!r})",
                                             f"fails = bool(_cmp({oy.var + ' before / after the step on ' + xv!r}, _before, _after, 'before', 'after', _ident_changes(_ids, {oy.var})))"])})
                return False
            state[y] = {"names": b["names"], "rows": rows, "ids": b["ids"]}
        state[x] = snap(x)
        # 2. a fresh object
        c = rnd.choice(ctors)
        i = ctors.index(c)
        full = rnd.random() < 0.4       # (the probe load costs as much as everything else of the step: on 40 % of the steps)
        now_src = fresh_src[c] if full else short_src[c]
        got = eval(now_src, ns)  # noqa: S307 - source written by this module
        res.count(("v9:tables:fresh", hist, c, full), True)
        res.feat("v9:tables:oracle:fresh-object" + (":with-probe-load" if full else ""))
        if got != refs[c][:len(got)] or (full and len(got) != len(refs[c])):
            with contextlib.redirect_stdout(io.StringIO()):
                diff = ns["_cmp"]("", refs[c][:len(got)], got, "at the start", "now")
            viol(f"public tables: a new object `{c}` created after `{src[:200]}` differs from the one created before anything was loaded - {'; '.join(diff)[:700]}",
                 {"family": "v9:tables-fresh", "constructor": c, "step": src, "probe_load": pcall, "differences": diff[:10],
                  "script": "\n".join([HEADER, ref_lines[i]] + s.script() + [f"_now = {now_src}",
                                                                           f"fails = bool(_cmp({'a new object ' + c!r}, _ref{i}[:len(_now)], _now, 'at the start', 'now'))"])})
            return False
        return True

    nobj = rnd.choice([2, 2, 3])
    for _ in range(nobj):
        x = new_object()
        if x is None or not checks(x, s.lines[-1][2]):
            return
    # some objects load at once, some stay untouched
    for x in range(nobj):
        if rnd.random() < 0.6 and s.objs[x].n == 1:
            if rnd.random() < 0.2:
                src, label, must, commit = act(x)
            else:
                g = Gen(rnd, s.objs[x], legacy=rnd.random() < 0.25)
                text, kinds = g.text(n=rnd.randint(2, 4))
                src, label = s.load_call(s.objs[x].var, text, g.legacy)
                must = True

                def commit(g=g, kinds=kinds):
                    g.commit()
                    for k in kinds:
                        res.feat("v9:tables:construct:" + ("legacy:" if g.legacy else "") + k)
            out = s.run(x, src, must)
            if out == "ok" and commit:
                commit()
            elif must and out != "ok":
                stop_line(x, src, out)
                return
            res.feat("v9:tables:initial:" + label)
            if not checks(x, src):
                return

    for step in range(nsteps):
        if len(s.objs) < 4 and rnd.random() < 0.08:
            x = new_object()
            if x is None:
                return
            src, label = s.lines[-1][2], "new-object"
        else:
            x = rnd.randrange(len(s.objs))
            src, label, must, commit = act(x)
            out = s.run(x, src, must)
            if out == "ok":
                if commit:
                    commit()
                if not must:
                    res.feat("v9:tables:a-load-written-to-fail-succeeded")
            elif must:
                stop_line(x, src, out)
                return
        res.feat("v9:tables:step:" + label)
        if not checks(x, src):
            return
    # 3. own history only
    for x, o in enumerate(s.objs):
        rows, log = s.universe(x)
        mine = [e for e in ns["_log"] if e[0] == o.var]
        res.count(("v9:tables:universe", tuple(l[2] for l in s.lines), x), True)
        res.feat("v9:tables:oracle:own-universe")
        if rows != state[x]["rows"] or log != mine:
            with contextlib.redirect_stdout(io.StringIO()):
                diff = ns["_cmp"]("", state[x]["rows"], rows, "in the session", "alone") if len(rows) == len(state[x]["rows"]) else ["different rows"]
            if log != mine:
                diff.insert(0, f"outcomes of its lines: in the session {[e[1:] for e in mine if e not in log][:4]}, alone {[e[1:] for e in log if e not in mine][:4]}")
            show = f"_show(_snap({o.var}, {state[x]['names']!r}, {s.probes!r}), [e for e in _log if e[0] == {o.var!r}])"
            viol(f"public tables: {o.var} shows something else at the end of a session with {len(s.objs) - 1} other cstruct object(s) than in a universe that executed only "
                 f"its own lines - {'; '.join(diff)[:700]}",
                 {"family": "v9:tables-universe", "object": o.var, "differences": diff[:10],
                  "script_a": "\n".join([HEADER] + s.script() + [show]), "script_b": "\n".join([HEADER] + s.script(only=x) + [show])})
            return
    res.feat("v9:tables:session-completed")
    if any(ns[o.var].lookups for o in s.objs if hasattr(ns[o.var], "lookups")):
        res.feat("v9:tables:session-with-a-lookup-table")
    if sum(1 for o in s.objs if getattr(ns[o.var], "lookups", None)) >= 2:
        res.feat("v9:tables:two-objects-with-lookup-tables")


def run(env, res, viol, rnd, n, steps=(5, 10)):
    dc = impl.dc()
    scratch = tempfile.mkdtemp(prefix="v9c14-")
    try:
        try:
            first = dc.cstruct()
            builtin = set(first.typedefs)
            ns = {"cstruct": dc.cstruct}
            exec(_CODE, ns)  # noqa: S102
            start = ns["_tables"](first)
        except Exception as e:  # noqa: BLE001
            viol(f"public tables: constructing / observing a new cstruct object raises {type(e).__name__}: {str(e)[:200]}", {"family": "v9:tables-harness"})
            return
        reported = [0]
        viol0 = viol

        def viol(what, data, sig=None):
            reported[0] += 1
            viol0(what, data, sig)

        for _ in range(n):
            if reported[0] >= 4:      # (a table shared by all objects fails every session: a few reports are enough)
                break
            try:
                table_session(env, res, viol, rnd, dc, scratch, builtin, rnd.randint(*steps))
            except Exception as e:  # noqa: BLE001 - the library must not trip the harness
                viol(f"public tables: a session raised {type(e).__name__}: {str(e)[:200]} outside the recorded lines (observing a cstruct object)",
                     {"family": "v9:tables-harness"})
        # 5. after all sessions
        try:
            end = ns["_tables"](dc.cstruct())
        except Exception as e:  # noqa: BLE001
            end = [("(new object)", f"raises {type(e).__name__}")]
        res.count(("v9:tables:run", n), True)
        if end != start:
            with contextlib.redirect_stdout(io.StringIO()):
                diff = ns["_cmp"]("", start, end, "before the first session", "after the last") if len(start) == len(end) else [str(end)[:300]]
            viol(f"public tables: a new cstruct() after {n} sessions differs from the one created before the first - {'; '.join(diff)[:700]}",
                 {"family": "v9:tables-run", "differences": diff[:10]})
    finally:
        shutil.rmtree(scratch, ignore_errors=True)


def _run_script(src):
    """run a recorded script in a process of its own (against the tree under test) -> its output"""
    import os
    import subprocess
    import sys
    env = dict(os.environ)
    env.update({"PYTHONPATH": str(common.REPO), "PYTHONDONTWRITEBYTECODE": "1"})
    try:
        p = subprocess.run([sys.executable, "-"], input=src, env=env, capture_output=True, text=True, timeout=900, cwd=tempfile.gettempdir())
    except Exception as e:  # noqa: BLE001
        return f"script-error: {type(e).__name__}"
    return p.stdout + (f"script-error: {p.stderr.strip()[-300:]}" if p.returncode else "")


def replay(case) -> int:
    """re-run the recorded script(s) on the current tree, each in a new process: 1 = still fails"""
    if "script" in case:
        out = _run_script(case["script"] + "\nprint('v9-verdict:', 'fails' if fails else 'passes')")
        if "v9-verdict: passes" not in out:
            print("\n".join(out.strip().split("\n")[-6:])[:2400])
            print("still fails: an object's public tables depend on what happened on other cstruct objects")
            return 1
        print("the case passes on this tree")
        return 0
    if "script_a" not in case:
        return 0
    a, b = _run_script(case["script_a"]).split("\n"), _run_script(case["script_b"]).split("\n")
    if a != b:
        d = next((i for i, (x, y) in enumerate(zip(a, b)) if x != y), min(len(a), len(b)) - 1)
        print("in the session :", a[d][:600] if d < len(a) else "(missing)")
        print("alone          :", b[d][:600] if d < len(b) else "(missing)")
        print("still fails: an object shows something else than in a universe that executed only its own lines")
        return 1
    print("the case passes on this tree")
    return 0
