"""Generator of one probe family of C07 (array length semantics): *count fields named like a special token*.

    struct T { [m;] <count field called EOF / sizeof / NULL / uint8 / struct / ...>; [m;] ELEM a[<expression over it>]...; [tail;] };

The property: x[expr] holds max(0, expr) elements, expr evaluated over the fields parsed BEFORE the array (falling back to
constants).  A field may carry any name the definition syntax accepts, also one that means something else elsewhere in the
syntax: `EOF` (the to-end-of-stream keyword: `uint8 EOF; T data[EOF];` is the idiom of the library's own test_eof - the field
binds the name, so the array holds exactly as many elements as the field says and is NOT a to-end-of-stream array), `sizeof`
(the expression operator), type names, definition keywords, enum member / enum type names, the structure's own name.  For every
such structure a complete input is built (count values 0..7, sometimes larger or negative) and then TRUNCATED AT EVERY POSITION:
an input that is too short for the announced number of elements must raise EOFError - never yield a shorter array - and the
complete input (also followed by further bytes) must give exactly the announced elements and the position behind them.

Varied by the seeded PRNG: the name (EOF in ~40 % of the plans, 24 other colliding names, ordinary names as control), the type of
the count field (1/2/4-byte integers, signed, enum, alias, a bit-field), a further field before or behind it (offsets, alignment), the
expression (the bare name mostly; masked, shifted, negated, added to another field or a constant), the dimensions (a[c], a[c][k],
a[k][c], a[c][c2], a[c][] null-terminated rows), 26 element kinds (packed and odd-width integers, char, wchar, floats, enums,
LEB128, pointer, void, fixed/dynamic structures, rows, a structure with a count field of its own that is ALSO called like the
outer one, a structure whose own a[EOF] is unbound - every structure evaluates over its own fields only - and therefore
to-end-of-stream), with and without a field behind the array (without one the array is the last thing read, so nothing behind it
masks a short array), both byte orders, packed/aligned, interpreted/compiled.

Excluded, with the reason:
  * count fields called like a constant that is defined BEFORE the structure (K2, K0): the parser folds the constant into the
    array type at definition time (known finding F45, exercised by c07.run_mixed's early-constant variant).
  * definition keywords (struct, union, typedef, ...) as names of BIT-FIELD count fields: `uint8 struct : 3;` is refused by the
    parser ("expected name") while `uint8 struct;` is accepted - definition grammar, not array lengths (see KEYWORD_NAMES).
  * names that collide with the library's Python internals rather than with the definition syntax (`self`, `dumps`, `_values`,
    `_sizes`: rejected or broken at class creation) - naming is not this property's subject.
"""
from __future__ import annotations

import random

from . import defs, refimpl
from .common import A

S = lambda n: ("sc", n)  # noqa: E731


def F(name, ty, bits=None):
    return {"name": name, "ty": ty, "bits": bits}


EOF_NAME = "EOF"
# names that mean something else somewhere in the definition / expression syntax (all accepted as field names by the library)
SPECIAL_NAMES = ["sizeof", "NULL", "eof", "EOFx", "EOF_", "_EOF", "uint8", "char", "void", "BYTE", "int", "wchar", "struct", "union", "enum",
                 "flag", "typedef", "define", "include", "A", "E8", "T", "_", "x0"]
PLAIN_NAMES = ["n", "count"]
# The tokenizer reads `struct` / `union` / `typedef` followed by `:` as the start of a definition, so `uint8 struct : 3;` is refused
# ("expected name") although `uint8 struct;` is accepted: a matter of the definition grammar, not of array lengths - the definition
# keywords are therefore not used as names of BIT-FIELD count fields (as plain count fields they are).
KEYWORD_NAMES = {"struct", "union", "enum", "flag", "typedef", "define", "include"}

ELEMS = {
    "uint8": S("uint8"), "int16": S("int16"), "uint32": S("uint32"), "int64": S("int64"), "uint24": S("uint24"), "int24": S("int24"),
    "uint48": S("uint48"), "int128": S("int128"), "char": S("char"), "wchar": S("wchar"), "float": S("float"), "double": S("double"),
    "E8": ("enum", "E8"), "F16": ("enum", "F16"), "E32": ("enum", "E32"), "E24": ("enum", "E24"), "uleb128": S("uleb128"), "ileb128": S("ileb128"),
    "ptr": ("ptr", S("uint8")), "void": S("void"),
    "struct": ("struct", [F("x", S("uint8")), F("y", S("uint16"))]),
    "dynstruct": ("struct", [F("k", S("uint8")), F("d", ("arr", S("uint8"), ("expr", "k & 3")))]),
    "row": ("arr", S("uint16"), ("fixed", 2)),
    "charrow": ("arr", S("char"), ("fixed", 3)),
    # "ownstruct" (count field of its own with the SAME name as the outer one) and "eofstruct" (an unbound a[EOF] of its own): see elem_of
}
NULL_OK = ["uint8", "int16", "uint32", "int64", "uint24", "int24", "uint48", "char", "wchar", "E8", "F16", "E32", "E24", "uleb128", "struct"]
COUNT_TYPES = [S("uint8")] * 6 + [S("uint16"), S("uint16"), S("uint32"), S("int8"), S("int8"), S("int16"), ("enum", "E8"), S("BYTE")]
# {c}: the count field, {m}: another field parsed before the array, or a constant
EXPRS = ["{c}"] * 12 + ["({c})", "{c} & 3", "{c} - 1", "{c} + {m}", "{c} * K2", "{c} >> 1", "-{c}", "{c} % 3", "K2 - {c}", "{c} | 1", "({c} & 1) + {m}", "{c}+K0", "~{c} & 3"]


def elem_of(rnd, en, cn):
    if en == "ownstruct":  # its own field of that name governs its own array
        return ("struct", [F(cn, S("uint8")), F("d", ("arr", rnd.choice([S("uint8"), S("uint16"), S("char")]), ("expr", cn)))])
    if en == "eofstruct":  # no field of that name in THIS structure: a[EOF] is the to-end-of-stream array, whatever the outer structure has
        return ("struct", [F("k", S("uint8")), F("d", ("arr", rnd.choice([S("uint8"), S("uint16"), S("char"), S("uint24")]), ("eof",)))])
    return ELEMS[en]


def named_plan(rnd: random.Random):
    """-> plan dict: tree, index of `a`, count-field name, element label, form ('expr' | 'eof'), feature labels"""
    r = rnd.random()
    cn = EOF_NAME if r < 0.4 else (rnd.choice(SPECIAL_NAMES) if r < 0.92 else rnd.choice(PLAIN_NAMES))
    en = rnd.choice(list(ELEMS) + ["ownstruct", "ownstruct", "eofstruct"])
    elem = elem_of(rnd, en, cn)
    eof = en == "eofstruct"
    # the fields before the array
    shape = rnd.choice(["c", "c", "c", "m,c", "c,m", "bits"])
    if shape == "bits" and cn in KEYWORD_NAMES:
        shape = "c,m"
    mt = rnd.choice([S("uint8"), S("uint8"), S("uint16"), S("uint32")])
    if shape == "bits":
        bt, w = rnd.choice([(S("uint8"), 8), (S("uint16"), 16)])
        b = rnd.choice([3, 4])
        pre = [F(cn, bt, b), F("m", bt, w - b)] if rnd.random() < 0.5 else [F("m", bt, w - b), F(cn, bt, b)]
    else:
        c = F(cn, rnd.choice(COUNT_TYPES))
        pre = {"c": [c], "m,c": [F("m", mt), c], "c,m": [c, F("m", mt)]}[shape]
    m = "m" if len(pre) > 1 else "K2"
    ex = lambda: rnd.choice(EXPRS).format(c=cn, m=m)  # noqa: E731
    dshape = "1d" if eof or en == "void" else rnd.choice(["1d"] * 6 + ["outer", "inner", "both", "nullrows"])
    if dshape == "nullrows" and en not in NULL_OK:
        dshape = "outer"
    dims = {"1d": lambda: [("expr", ex())],
            "outer": lambda: [("expr", ex()), ("fixed", rnd.randint(1, 3))],
            "inner": lambda: [("fixed", rnd.randint(1, 3)), ("expr", ex())],
            "both": lambda: [("expr", ex()), ("expr", ex())],
            "nullrows": lambda: [("expr", ex()), ("null",)]}[dshape]()
    t = elem
    for d in reversed(dims):  # C order: the first dimension is the outermost
        t = ("arr", t, d)
    fields = pre + [F("a", t)]
    tail = (not eof) and rnd.random() < 0.45
    if tail:
        fields.append(F("tail", rnd.choice([S("uint8"), S("uint8"), S("uint16"), S("uint32")])))
    kind = "EOF" if cn == EOF_NAME else ("plain" if cn in PLAIN_NAMES else "special")
    return {"tree": ("struct", fields), "pre": pre, "cn": cn, "en": en, "elem": elem, "dims": dims, "dshape": dshape, "shape": shape,
            "arr_index": len(pre), "form": "eof" if eof else "expr", "tail": tail, "kind": kind}


class _P(refimpl.P):
    """the reference parser, with one repair for inputs that END BEFORE THE POSITION of an empty array: refimpl reads a wchar array
    of n elements as one block `take(data, pos, 2 * n)`, and take() calls an input short whenever pos + n exceeds its length - also
    for n = 0 when pos (the aligned offset of the array) lies behind the end of a truncated input.  No element is missing there:
    an empty array needs no input (every other element type already behaves so, their elements are taken one by one)."""

    def array(self, elem, ln, pos, ctx):
        if elem[0] == "sc" and refimpl.ALIAS.get(elem[1], elem[1]) == "wchar" and ln[0] in ("fixed", "expr"):
            n = ln[1] if ln[0] == "fixed" else max(0, refimpl.eval_expr(ln[1], ctx, self.cfg.consts))
            if n == 0:
                return [A("wstr")], pos
        return super().array(elem, ln, pos, ctx)


def ref_parse(tree, data, pos, cfg):
    """refimpl.parse over the repaired parser: -> (value, end, mask[pos:end]); raises refimpl.Short / refimpl.Bad"""
    p = _P(bytes(data), cfg)
    v, end = p.value(tree, pos, {})
    return v, end, bytes(p.mask[pos:end]) + b"\x00" * max(0, end - len(data))


def _encode(ty, v, cfg):
    base = ty[1] if ty[0] == "sc" else defs.ENUMS[ty[1]][1]
    _, size, _, _ = refimpl.sc(base)
    return (v % (1 << (8 * size))).to_bytes(size, cfg.endian)


def _pick_count(rnd, ty):
    signed = ty[0] == "sc" and refimpl.sc(ty[1])[2]
    r = rnd.random()
    if r < 0.82:
        return rnd.choice([0, 1, 1, 2, 2, 3, 3, 4, 5, 7])
    if signed:
        return rnd.choice([-1, -3, -128, 6])
    return rnd.choice([8, 17, 40, 255])


def filler(rnd, n):
    """element material: every byte < 0x80 (LEB128 values end, no UTF-16 surrogate halves, no NaN), zero bytes in some palettes only"""
    pal = rnd.choice([[0, 1, 1, 2, 2, 3, 0x41, 0x7F], [1, 2, 3, 5, 0x20, 0x41, 0x61, 0x7F], [0, 0, 1, 2, 3], [1, 1, 2, 3, 4, 7]])
    return bytes(rnd.choice(pal) for _ in range(n))


def named_full(rnd: random.Random, plan, cfg: refimpl.Cfg):
    """a complete input for the structure: the fields before the array at the offsets of the layout rule, then exactly as much
    element material (and the tail field) as the reference parser consumes.  -> bytes | None (no input of <= 600 bytes drawn)"""
    pre, tree = plan["pre"], plan["tree"]
    lay = refimpl.struct_layout(pre, cfg)
    for _attempt in range(10):
        head = bytearray()
        for f, off in zip(pre, lay["offsets"]):
            if off is None:
                continue  # a further bit-field of the unit already written
            if len(head) < off:
                head += filler(rnd, off - len(head))
            if f["bits"]:
                _, usize, _, _ = refimpl.sc(f["ty"][1])
                # small numbers in every bit-field of the unit, whichever end the fields are allocated from
                unit = rnd.choice([0x00, 0x01, 0x12, 0x23, 0x31, 0x42, 0x20, 0x10, 0x33, 0x55, 0x08])
                unit = unit | (rnd.choice([0, 0x01, 0x20, 0x41]) << 8) if usize == 2 else unit
                head += unit.to_bytes(usize, cfg.endian)
            else:
                head += _encode(f["ty"], _pick_count(rnd, f["ty"]), cfg)
        body = filler(rnd, 600)
        data = bytes(head) + body
        if plan["form"] == "eof":
            # the inner a[EOF] takes whatever is there: any length is complete as far as the element size allows
            return bytes(head) + body[:rnd.choice([0, 1, 2, 3, 4, 6, 9, 12])]
        try:
            _, end, _ = ref_parse(tree, data, 0, cfg)
        except (refimpl.Short, refimpl.Bad):
            continue
        return data[:end]
    return None


def named_inputs(rnd: random.Random, full: bytes, tier: str):
    """-> [(label, input)]: the complete input, the complete input followed by further bytes, and the input cut at every position
    (quick tier: at most 14 positions of a long input, the first and the last ones always among them)"""
    n = len(full)
    if tier != "quick" and n <= 240 or n <= 14:
        cuts = list(range(n))
    else:
        k = 14 if tier == "quick" else 120
        cuts = sorted(set(rnd.sample(range(n), k - 4)) | {0, 1, n - 2, n - 1})
    out = [("complete", full), ("complete+more", full + filler(rnd, rnd.choice([1, 2, 3, 8])))]
    out += [("cut", full[:c]) for c in cuts]
    return out
