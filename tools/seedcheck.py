#!/venv/bin/python
"""Validate seeded changes and run the checks against them.

usage: tools/seedcheck.py validate <dir> <prop> <k>     # dir holds m<k>.diff, m<k>_demo.py, m<k>.json (sub-agent output)
       tools/seedcheck.py run <seeded-id> [props...]      # run ./check <prop> --tier quick against seeded/<id>/patch.diff
       tools/seedcheck.py runall [--tier quick]           # every seeded/<id>, its own property; prints a table

A seeded change is applied to a scratch worktree of /repo's HEAD under /tmp (removed afterwards) and the checks are
pointed at it with VERIF_REPO; /repo itself is never touched.
"""
from __future__ import annotations

import json
import os
import re
import shutil
import subprocess
import sys
import tempfile
from pathlib import Path

VERIF = Path(__file__).resolve().parent.parent
REPO = Path("/repo")
PY = "/venv/bin/python"


def sh(cmd, cwd=None, env=None, timeout=3600):
    e = dict(os.environ)
    e["PYTHONDONTWRITEBYTECODE"] = "1"
    if env:
        e.update(env)
    p = subprocess.run(cmd, cwd=cwd, env=e, capture_output=True, text=True, timeout=timeout)
    return p.returncode, p.stdout + p.stderr


class Worktree:
    def __init__(self, patch: Path | None):
        self.patch = patch

    def __enter__(self):
        self.dir = Path(tempfile.mkdtemp(prefix="seedwt-", dir="/tmp"))
        self.dir.rmdir()
        rc, out = sh(["git", "-C", str(REPO), "worktree", "add", "--detach", str(self.dir), "HEAD"])
        if rc != 0:
            raise RuntimeError(out)
        if self.patch is not None:
            rc, out = sh(["git", "-C", str(self.dir), "apply", str(self.patch)])
            if rc != 0:  # later fix: commits may have moved the context lines
                rc, out = sh(["git", "-C", str(self.dir), "apply", "-C1", str(self.patch)])
            if rc != 0:
                self.__exit__(None, None, None)
                raise RuntimeError(f"patch does not apply: {out}")
        return self.dir

    def __exit__(self, *a):
        sh(["git", "-C", str(REPO), "worktree", "remove", "--force", str(self.dir)])
        shutil.rmtree(self.dir, ignore_errors=True)


def validate(src: Path, prop: str, k: str) -> dict:
    patch, demo = src / f"m{k}.diff", src / f"m{k}_demo.py"
    res = {"property": prop, "k": k}
    with Worktree(None) as clean:
        rc, out = sh([PY, str(demo)], cwd="/tmp", env={"PYTHONPATH": str(clean)}, timeout=600)
        res["demo_clean_rc"] = rc
    try:
        with Worktree(patch) as wt:
            rc, out = sh([PY, str(demo)], cwd="/tmp", env={"PYTHONPATH": str(wt)}, timeout=600)
            res["demo_patched_rc"] = rc
            res["demo_patched_tail"] = out.strip().split("\n")[-1][:300]
            rc, out = sh([PY, "-m", "pytest", "-q", "-p", "no:cacheprovider", "--timeout=900"], cwd=wt, env={"PYTHONPATH": str(wt)}, timeout=1800)
            m = re.search(r"(\d+) passed", out)
            res["tests_passed"] = int(m.group(1)) if m else 0
            res["tests_failed"] = "failed" in out.split("\n")[-2] if out.strip() else True
    except RuntimeError as e:
        res["error"] = str(e)[:300]
    res["valid"] = (res.get("demo_clean_rc") == 0 and res.get("demo_patched_rc", 0) != 0 and res.get("tests_passed") == 500 and not res.get("tests_failed"))
    return res


def run_checks(patch: Path, props: list[str], tier="quick") -> dict:
    out = {}
    with Worktree(patch) as wt:
        for p in props:
            rc, txt = sh([str(VERIF / "check"), p, "--tier", tier], cwd=VERIF, env={"VERIF_REPO": str(wt)}, timeout=7200)
            lines = [l for l in txt.split("\n") if l.startswith(("VIOLATION", "INFRA", "KNOWN-FINDING")) or " tier=" in l]
            replay = None
            m = re.search(r"VIOLATION property=\S+ replay=(\S+)", txt)
            what = None
            if m and Path(m.group(1)).exists():
                try:
                    body = json.loads(Path(m.group(1)).read_text())
                    what = (body.get("what") or "; ".join(body.get("broken_obligations", []))[:300] or "")[:300]
                except Exception:  # noqa: BLE001
                    pass
            out[p] = {"rc": rc, "lines": [l[:300] for l in lines if not l.startswith("KNOWN")], "what": what,
                      "no_failing_input": "no-failing-input-found" in txt}
    # restore the generated tables / evidence for the unchanged tree
    return out


def main():
    cmd = sys.argv[1]
    if cmd == "validate":
        print(json.dumps(validate(Path(sys.argv[2]), sys.argv[3], sys.argv[4]), indent=1))
    elif cmd == "run":
        sid = sys.argv[2]
        meta = json.loads((VERIF / "seeded" / sid / "meta.json").read_text())
        props = sys.argv[3:] or [meta["property"]]
        print(json.dumps(run_checks(VERIF / "seeded" / sid / "patch.diff", props), indent=1))
    elif cmd == "runall":
        tier = sys.argv[sys.argv.index("--tier") + 1] if "--tier" in sys.argv else "quick"
        only = [a for a in sys.argv[2:] if not a.startswith("--") and a != tier]
        rows = []
        for d in sorted((VERIF / "seeded").iterdir()):
            if not (d / "meta.json").exists() or (only and not any(d.name.startswith(o) for o in only)):
                continue
            meta = json.loads((d / "meta.json").read_text())
            try:
                r = run_checks(d / "patch.diff", [meta["property"]], tier)[meta["property"]]
            except RuntimeError as e:  # a later fix: commit rewrote the lines the patch touches: the seed has to be re-based
                r = {"rc": 3, "no_failing_input": False, "what": "STALE PATCH: " + str(e)[:160]}
            if meta.get("harmless"):
                # a behaviour-preserving refactoring: the check should stay quiet; a broken proof / correspondence without a failing
                # input is the permitted (but noted) outcome, a concrete "failing input" is a false alarm of the machinery
                verdict = "quiet" if r["rc"] == 0 else ("INFRA" if r["rc"] != 1 else ("broken-tie" if r["no_failing_input"] else "FALSE-ALARM"))
            else:
                verdict = "caught" if r["rc"] == 1 else ("MISSED" if r["rc"] == 0 else "INFRA")
            rows.append((d.name, meta["property"], verdict, r["no_failing_input"], r["what"]))
            print(f"{d.name:12s} {meta['property']} {verdict:6s} {'(no-failing-input)' if r['no_failing_input'] else ''} {r['what'] or ''}", flush=True)
        # merge into the recorded results (a partial run updates only the seeds it ran)
        import fcntl

        rp = VERIF / "seeded" / "RESULTS.json"
        with open(VERIF / "seeded" / ".results.lock", "w") as lk:  # several partial runs may finish at the same time
            fcntl.flock(lk, fcntl.LOCK_EX)
            old = {r["seed"]: r for r in json.loads(rp.read_text())} if rp.exists() else {}
            for r in rows:
                old[r[0]] = dict(zip(["seed", "property", "verdict", "no_failing_input", "what"], r))
            rp.write_text(json.dumps([old[k] for k in sorted(old)], indent=1))


if __name__ == "__main__":
    main()
