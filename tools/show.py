"""dev helper: run a check and summarise its replays"""
import glob, json, os, subprocess, sys
prop = sys.argv[1]
seed = os.environ.get("VERIF_SEED", "0")
for f in glob.glob(f"/verif/replays/{prop}-*.json"):
    os.remove(f)
p = subprocess.run(["/verif/check", prop] + sys.argv[2:], capture_output=True, text=True)
for l in p.stdout.split("\n"):
    if l and "conda" not in l:
        print(l[:220])
for f in sorted(glob.glob(f"/verif/replays/{prop}-*.json"))[:int(os.environ.get("N", "6"))]:
    d = json.load(open(f))
    print("*", d.get("what", "")[:600])
    c = d.get("case") or {}
    if c and "definition" not in c:
        print("   ", {k: (str(v)[:300]) for k, v in c.items() if k != "repro"})
    elif c:
        print("   ", c.get("definition", "").split("#define K0 0\n")[-1].replace("\n", " ")[:400],
              {k: c.get(k) for k in ("endian", "align", "compiled", "pointer", "data", "field", "value", "pos") if k in c})
    for x in d.get("disagreements", [])[:6]:
        cc = x["case"]
        print("  D:", x["what"][:500], cc.get("definition", "").split("#define K0 0\n")[-1].replace("\n", " ")[:300],
              {k: cc.get(k) for k in ("endian", "align", "compiled", "pointer", "data") if k in cc})
    for e in d.get("broken_obligations", [])[:2]:
        print("  L:", e[:800])
