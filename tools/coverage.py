#!/venv/bin/python
"""tools/coverage.py [ids...]  -- which executable lines of /repo/dissect/cstruct does no quick check execute?

Runs ./check <id> --tier quick with VERIF_COVERAGE set (harness/cov.py), unions the hits and prints, per file, the
executable lines never reached, grouped in runs with their source text.  Writes coverage/SUMMARY.json.  Diagnostic only.
"""
import json, os, subprocess, sys, tempfile
from pathlib import Path

VERIF = Path(__file__).resolve().parent.parent
REPO = Path(os.environ.get("VERIF_REPO", "/repo"))
ids = sys.argv[1:] or [f"C{i:02d}" for i in range(1, 21)]
tier = os.environ.get("VERIF_TIER", "quick")


def executable_lines(path: Path) -> set[int]:
    src = path.read_text()
    code = compile(src, str(path), "exec")
    out: set[int] = set()
    todo = [code]
    while todo:
        c = todo.pop()
        for _, _, ln in c.co_lines():
            if ln is not None:
                out.add(ln)
        todo.extend(k for k in c.co_consts if hasattr(k, "co_lines"))
    # docstring-only / def lines count as executed on import; keep them, import always runs
    return out


def main():
    tmp = Path(tempfile.mkdtemp(prefix="verifcov"))
    per = {}
    for i in ids:
        f = tmp / f"{i}.json"
        env = dict(os.environ, VERIF_COVERAGE=str(f))
        p = subprocess.run([str(VERIF / "check"), i, "--tier", tier], env=env, capture_output=True, text=True)
        print(i, "rc", p.returncode, file=sys.stderr)
        per[i] = json.loads(f.read_text()) if f.exists() else {}
    total: dict[str, set[int]] = {}
    for i, d in per.items():
        for k, v in d.items():
            total.setdefault(k, set()).update(v)
    summary = {}
    for path in sorted((REPO / "dissect/cstruct").rglob("*.py")):
        key = str(path.relative_to(REPO))
        ex = executable_lines(path)
        hit = total.get(key, set()) & ex
        miss = sorted(ex - hit)
        summary[key] = {"executable": len(ex), "hit": len(hit), "missed": miss,
                        "by_check": {i: len(set(per[i].get(key, [])) & ex) for i in ids}}
        print(f"== {key}: {len(hit)}/{len(ex)}")
        src = path.read_text().splitlines()
        for ln in miss:
            print(f"   {ln:5d}  {src[ln - 1] if 0 < ln <= len(src) else ''}")
    (VERIF / "coverage").mkdir(exist_ok=True)
    (VERIF / "coverage" / "SUMMARY.json").write_text(json.dumps(summary, indent=1))
    for f in tmp.iterdir():
        f.unlink()
    tmp.rmdir()


main()
